// Shared plumbing of the correspondence harnesses: line protocol, hex fields, watchdog.
// One case per line on stdin, exactly one answer line per case on stdout (flushed per case,
// so that after a sanitizer abort the runner knows which case was being executed).
#pragma once
#include <sys/time.h>
#include <csignal>
#include <cstdio>
#include <cstdlib>
#include <cstring>
#include <iostream>
#include <memory>
#include <sstream>
#include <string>
#include <unistd.h>
#include <vector>

namespace nv
{
inline std::string hex(const std::string& s)
{
    if (s.empty())
        return "-";
    static const char* d = "0123456789abcdef";
    std::string r;
    r.reserve(s.size() * 2);
    for (unsigned char c : s)
    {
        r.push_back(d[c >> 4]);
        r.push_back(d[c & 15]);
    }
    return r;
}

inline int hv(char c)
{
    if (c >= '0' && c <= '9')
        return c - '0';
    if (c >= 'a' && c <= 'f')
        return c - 'a' + 10;
    return -1;
}

inline std::string unhex(const std::string& s)
{
    if (s == "-")
        return {};
    std::string r;
    for (std::size_t i = 0; i + 1 < s.size(); i += 2)
        r.push_back(static_cast<char>(hv(s[i]) * 16 + hv(s[i + 1])));
    return r;
}

inline std::vector<std::string> splitc(const std::string& s, char c)
{
    std::vector<std::string> r;
    std::size_t start = 0;
    while (true)
    {
        auto p = s.find(c, start);
        if (p == std::string::npos)
        {
            r.push_back(s.substr(start));
            break;
        }
        r.push_back(s.substr(start, p - start));
        start = p + 1;
    }
    return r;
}

inline std::vector<std::string> unhex_list(const std::string& s)
{
    std::vector<std::string> r;
    if (s == ".")
        return r;
    for (auto& e : splitc(s, ','))
        r.push_back(unhex(e));
    return r;
}

inline std::string hex_list(const std::vector<std::string>& l)
{
    if (l.empty())
        return ".";
    std::string r;
    for (std::size_t i = 0; i < l.size(); i++)
    {
        if (i)
            r += ",";
        r += hex(l[i]);
    }
    return r;
}

inline void on_alarm(int)
{
    const char* m = "crash:timeout\n";
    ssize_t ignored = write(1, m, strlen(m));
    (void)ignored;
    _exit(3);
}

// handler: fields of one case (without the engine tag) -> canonical answer.
// The watchdog counts the CPU time of the process (ITIMER_PROF), so that a busy machine cannot make a
// case look like a hang; a generous wall-clock alarm behind it catches a case that blocks without
// using the CPU.  cpu_based = false (threaded harness): wall clock only.
template <typename F>
int main_loop(F handler, unsigned watchdog_s = 5, bool cpu_based = true)
{
    std::signal(SIGALRM, on_alarm);
    std::signal(SIGPROF, on_alarm);
    std::string line;
    while (std::getline(std::cin, line))
    {
        auto f = splitc(line, '\t');
        if (!f.empty())
            f.erase(f.begin());
        struct itimerval it;
        std::memset(&it, 0, sizeof it);
        if (cpu_based)
        {
            it.it_value.tv_sec = watchdog_s;
            setitimer(ITIMER_PROF, &it, nullptr);
            alarm(watchdog_s * 20 + 60);
        }
        else
            alarm(watchdog_s);
        std::string ans = handler(f);
        alarm(0);
        if (cpu_based)
        {
            it.it_value.tv_sec = 0;
            setitimer(ITIMER_PROF, &it, nullptr);
        }
        fputs(ans.c_str(), stdout);
        fputc('\n', stdout);
        fflush(stdout);
    }
    return 0;
}
} // namespace nv
