// Correspondence harness for nitro::options (C01-C04, C11-C14).
// Cases (after the engine tag):
//   P <decl> <env> <argv>                      one parse on a fresh parser
//   H <decl> (<env> <argv>)*                   several parses on ONE parser object
//   I <positionals> <i>                        arguments::get(int)
//   T <token>                                  user_input constructor and classification
//   E <word>                                   toggle::parse_env_value
//   D <ops>                                    declaration histories (see run_decl)
// <decl> = <allowed|*>,<greedy>|kind:group:name:short:env:default:flag;...   (~ = absent)
#include "common.hpp"

#include <nitro/options/parser.hpp>

#include <climits>
#include <cstdlib>
#include <set>

namespace no = nitro::options;

// names of the named groups: the first one is called like the heading of the default group (which is a different
// group: the default group is not addressable by name)
static std::string group_name(int k)
{
    return k == 1 ? std::string("arguments") : "g" + std::to_string(k);
}


struct DeclItem
{
    char kind;
    int group;
    std::string name;
    bool has_short = false;
    std::string short_name;
    bool has_env = false;
    std::string env;
    bool has_default = false;
    std::string dflt; // raw field
    bool flag = false;
};

struct Decl
{
    bool unlimited = false;
    std::size_t allowed = 0;
    bool greedy = false;
    std::vector<DeclItem> items;
};

static Decl parse_decl(const std::string& s)
{
    Decl d;
    auto bar = s.find('|');
    auto head = nv::splitc(s.substr(0, bar), ',');
    if (head.at(0) == "*")
        d.unlimited = true;
    else
        d.allowed = std::stoul(head.at(0));
    d.greedy = head.at(1) == "1";
    std::string body = s.substr(bar + 1);
    if (body.empty())
        return d;
    for (auto& tok : nv::splitc(body, ';'))
    {
        auto t = nv::splitc(tok, ':');
        DeclItem it;
        it.kind = t.at(0)[0];
        it.group = std::stoi(t.at(1));
        it.name = nv::unhex(t.at(2));
        if (t.at(3) != "~")
        {
            it.has_short = true;
            it.short_name = nv::unhex(t.at(3));
        }
        if (t.at(4) != "~")
        {
            it.has_env = true;
            it.env = nv::unhex(t.at(4));
        }
        if (t.at(5) != "~")
        {
            it.has_default = true;
            it.dflt = t.at(5);
        }
        it.flag = t.at(6) == "1";
        d.items.push_back(it);
    }
    return d;
}

static void declare(no::parser& p, const Decl& d)
{
    for (auto& it : d.items)
    {
        no::group& g = it.group == 0 ? p.group() : p.group(group_name(it.group));
        if (it.kind == 'o')
        {
            auto& o = g.option(it.name, "d");
            if (it.has_short)
                o.short_name(it.short_name);
            if (it.has_env)
                o.env(it.env);
            if (it.has_default)
                o.default_value(nv::unhex(it.dflt));
            if (it.flag)
                o.optional();
        }
        else if (it.kind == 'm')
        {
            auto& o = g.multi_option(it.name, "d");
            if (it.has_short)
                o.short_name(it.short_name);
            if (it.has_env)
                o.env(it.env);
            if (it.has_default)
            {
                std::vector<std::string> dv;
                if (it.dflt != ".")
                    for (auto& e : nv::splitc(it.dflt, '+'))
                        dv.push_back(nv::unhex(e));
                o.default_value(dv);
            }
            if (it.flag)
                o.optional();
        }
        else
        {
            auto& o = g.toggle(it.name, "d");
            if (it.has_short)
                o.short_name(it.short_name);
            if (it.has_env)
                o.env(it.env);
            if (it.has_default)
                o.default_value(std::stoi(it.dflt));
            if (it.flag)
                o.allow_reverse();
        }
    }
    // Settings are the last word: for declarations with an odd number of items every setting is first given another
    // value and then the one that is meant (greedy switched on and off again, a limit raised and lowered again, ...)
    bool detour = d.items.size() % 2 == 1;
    if (detour)
    {
        p.accept_positionals(d.unlimited ? 1 : d.allowed + 2);
        if (d.allowed == 0 && !d.unlimited)
            p.accept_positionals(0);
        p.greedy_postionals(!d.greedy);
    }
    if (d.unlimited)
        p.accept_positionals();
    else if (d.allowed != 0)
        p.accept_positionals(d.allowed);
    if (d.greedy)
        p.greedy_postionals();
    else if (detour)
        p.greedy_postionals(false);
}

static std::set<std::string> g_env_set;

static void set_env(const Decl& d, const std::string& field)
{
    for (auto& n : g_env_set)
        unsetenv(n.c_str());
    g_env_set.clear();
    for (auto& it : d.items)
        if (it.has_env && !it.env.empty() && it.env.find('=') == std::string::npos)
            unsetenv(it.env.c_str());
    if (field == ".")
        return;
    for (auto& kv : nv::splitc(field, ','))
    {
        auto e = nv::splitc(kv, '=');
        std::string k = nv::unhex(e.at(0)), v = nv::unhex(e.at(1));
        setenv(k.c_str(), v.c_str(), 1);
        g_env_set.insert(k);
    }
}

static bool canon_int(const std::string& s, long long& out)
{
    // decimal text of an int: optional '-', 1-10 digits (leading zeros are still decimal), in range
    std::size_t i = (!s.empty() && s[0] == '-') ? 1 : 0;
    if (i == s.size() || s.size() - i > 10)
        return false;
    long long n = 0;
    for (std::size_t k = i; k < s.size(); k++)
    {
        if (s[k] < '0' || s[k] > '9')
            return false;
        n = n * 10 + (s[k] - '0');
    }
    out = i ? -n : n;
    return out >= INT_MIN && out <= INT_MAX;
}

template <typename M>
static std::vector<std::string> sorted_names(const Decl& d, char kind)
{
    std::set<std::string> s;
    for (auto& it : d.items)
        if (it.kind == kind)
            s.insert(it.name);
    return std::vector<std::string>(s.begin(), s.end());
}

static std::string join(const std::vector<std::string>& v)
{
    if (v.empty())
        return ".";
    std::string r;
    for (std::size_t i = 0; i < v.size(); i++)
        r += (i ? "," : "") + v[i];
    return r;
}

static std::string result_str(const Decl& d, const no::arguments& a)
{
    std::vector<std::string> T, O, M, I, V;
    std::set<std::string> all;
    for (auto& n : sorted_names<int>(d, 't'))
    {
        T.push_back(nv::hex(n) + "=" + std::to_string(a.given(n)));
        all.insert(n);
    }
    for (auto& n : sorted_names<int>(d, 'o'))
    {
        all.insert(n);
        std::string v;
        bool has = true;
        try
        {
            v = a.get(n);
        }
        catch (std::exception&)
        {
            has = false;
        }
        O.push_back(nv::hex(n) + "=" + (has ? nv::hex(v) : std::string("~")));
        long long k;
        if (has && canon_int(v, k))
        {
            // typed access has to return the number whose decimal text was given
            I.push_back(nv::hex(n) + "=" + std::to_string(a.as<int>(n)));
            if (a.as<long>(n) != k || a.as<std::string>(n) != v)
                I.back() += "!typed-access-disagrees";
        }
    }
    for (auto& n : sorted_names<int>(d, 'm'))
    {
        all.insert(n);
        auto& vs = a.get_all(n);
        std::string s;
        if (vs.empty())
            s = ".";
        for (std::size_t i = 0; i < vs.size(); i++)
        {
            s += (i ? "+" : "") + nv::hex(vs[i]);
            if (a.get(n, i) != vs[i])
                s += "!get(i)-disagrees";
            long long k;
            if (canon_int(vs[i], k) && (a.as<int>(n, i) != k || a.as<std::string>(n, i) != vs[i]))
                s += "!typed-access(i)-disagrees";
        }
        if (a.count(n) != vs.size())
            s += "!count-disagrees";
        M.push_back(nv::hex(n) + "=" + s);
    }
    std::vector<std::string> prov;
    for (auto& n : all)
        if (a.provided(n))
            prov.push_back(n);
    return "ok T:" + join(T) + "|O:" + join(O) + "|M:" + join(M) + "|P:" + nv::hex_list(a.positionals()) +
           "|V:" + nv::hex_list(prov) + "|I:" + join(I);
}

// Results kept by a caller: the positionals of a result are what that parse returned, whatever is done with the
// parser afterwards (further parses, rejected parses, moving the parser).  Only the positional list is re-read: option
// values are documented to live in the parser's option objects.
struct Kept
{
    no::arguments result;
    std::vector<std::string> positionals;
};
static bool g_keep = false;
static std::vector<Kept> g_kept;

static std::string kept_results_changed()
{
    std::string r;
    for (auto& k : g_kept)
    {
        bool same = k.result.positionals() == k.positionals;
        if (same && !k.positionals.empty())
            same = k.result.get(0) == k.positionals.front() && k.result.get(-1) == k.positionals.back() &&
                   k.result[-1] == k.positionals.back();
        if (!same)
            r = "!kept-result-changed";
    }
    g_kept.clear();
    return r;
}

static std::string do_parse(no::parser& p, const Decl& d, const std::vector<std::string>& argv)
{
    std::vector<const char*> av;
    av.push_back("prog");
    for (auto& s : argv)
        av.push_back(s.c_str());
    try
    {
        auto a = p.parse(static_cast<int>(av.size()), av.data());
        if (g_keep)
            g_kept.push_back(Kept{ a, a.positionals() });
        return result_str(d, a);
    }
    catch (no::parsing_error&)
    {
        return "user";
    }
    catch (no::parser_error&)
    {
        return "dev";
    }
    catch (std::exception& e)
    {
        return std::string("other:") + typeid(e).name();
    }
}

// the parser that a move assignment overwrites: it has options, settings and a parse (of a bundle) of its own
static void make_used(no::parser& q)
{
    // a toggle for every letter and digit, an option, positional settings, and parses of bundles
    const std::string letters = "abcdefghijklmnopqrstuvwxyzABCDEFGHIJKLMNOPQRSTUVWXYZ0123456789";
    for (char c : letters)
        q.toggle(std::string("dropped-") + c, "d").short_name(std::string(1, c));
    q.option("dropped-option", "d").optional();
    q.accept_positionals(7);
    q.greedy_postionals();
    const char* av[] = { "prog", "-ab", "-zyx", "--dropped-option", "x", "pos" };
    try
    {
        q.parse(6, av);
    }
    catch (std::exception&)
    {
    }
}

static std::string b(bool x)
{
    return x ? "1" : "0";
}

// declaration histories (C13):  ops separated by ';'
//   o|m|t:<group>:<name>         declare; answer  ok<id> (id = first declaration index of that object) | dev
//   sh:<id>:<short>   en:<id>:<env>   mv:<id>:<metavar>       setters on a declared object; ok | dev
//   move                          the parser object is moved (constructed from std::move)
//   grp:<k>                       request group k (creates it)
//   probe:<argv hexlist>          parse; answer = outcome
static std::string run_decl(const std::string& ops);

static std::string handle(const std::vector<std::string>& f0)
{
    // the first field names the property whose family the case belongs to; the harness does not care
    std::vector<std::string> f(f0.begin() + 1, f0.end());
    const std::string& op = f.at(0);
    if (op == "P" || op == "PM1" || op == "PM2")
    {
        Decl d = parse_decl(f.at(1));
        no::parser p("prog");
        try
        {
            declare(p, d);
        }
        catch (no::parser_error&)
        {
            return "decl-dev";
        }
        set_env(d, f.at(2));
        std::string r;
        if (op == "P")
        {
            r = do_parse(p, d, nv::unhex_list(f.at(3)));
            // the second entry point, parse(vector<user_input>), on a parser of its own: when every token can be
            // made into a user_input it has to give the same outcome
            std::vector<no::user_input> ui;
            bool constructible = true;
            try
            {
                for (auto& t : nv::unhex_list(f.at(3)))
                    ui.emplace_back(t);
            }
            catch (no::parsing_error&)
            {
                constructible = false;
            }
            std::size_t total = 0;
            for (auto& t : ui)
                total += t.data().size();
            if (constructible && total <= 50000)
            {
                no::parser p2("prog");
                declare(p2, d);
                std::string r2;
                try
                {
                    auto a2 = p2.parse(ui);
                    r2 = result_str(d, a2);
                }
                catch (no::parsing_error&)
                {
                    r2 = "user";
                }
                catch (no::parser_error&)
                {
                    r2 = "dev";
                }
                if (r2 != r)
                    r = "ENTRY-POINTS-DIFFER argv:" + r + " user_input:" + r2;
            }
        }
        else if (op == "PM1")
        {
            // a parser built in one place and used in another: move-constructed after its declaration
            no::parser q(std::move(p));
            r = do_parse(q, d, nv::unhex_list(f.at(3)));
        }
        else
        {
            // ... or move-assigned over another parser (which had a declaration and settings of its own)
            no::parser q("other");
            make_used(q);
            q = std::move(p);
            r = do_parse(q, d, nv::unhex_list(f.at(3)));
        }
        set_env(d, ".");
        return r;
    }
    if (op == "PU")
    {
        // only the vector<user_input> entry point: tokens are std::strings and may hold any byte, NUL included
        Decl d = parse_decl(f.at(1));
        no::parser p("prog");
        try
        {
            declare(p, d);
        }
        catch (no::parser_error&)
        {
            return "decl-dev";
        }
        set_env(d, f.at(2));
        std::string r;
        try
        {
            std::vector<no::user_input> ui;
            for (auto& t : nv::unhex_list(f.at(3)))
                ui.emplace_back(t);
            auto a = p.parse(ui);
            r = result_str(d, a);
        }
        catch (no::parsing_error&)
        {
            r = "user";
        }
        catch (no::parser_error&)
        {
            r = "dev";
        }
        set_env(d, ".");
        return r;
    }
    if (op == "H" || op == "HM")
    {
        // HM: between two parses the parser object is moved (alternately move-constructed and move-assigned), the
        // way a parser kept in a container or handed around is
        Decl d = parse_decl(f.at(1));
        auto cur = std::make_unique<no::parser>("prog");
        try
        {
            declare(*cur, d);
        }
        catch (no::parser_error&)
        {
            return "decl-dev";
        }
        std::string out;
        int moves = 0;
        for (std::size_t i = 2; i + 1 < f.size(); i += 2)
        {
            if (op == "HM" && i > 2)
            {
                if (moves++ % 2 == 0)
                    cur = std::make_unique<no::parser>(std::move(*cur));
                else
                {
                    auto nxt = std::make_unique<no::parser>("other");
                    make_used(*nxt);
                    *nxt = std::move(*cur);
                    cur = std::move(nxt);
                }
            }
            set_env(d, f[i]);
            g_keep = true;
            out += (i > 2 ? ";" : "") + do_parse(*cur, d, nv::unhex_list(f[i + 1]));
            g_keep = false;
        }
        set_env(d, ".");
        out += kept_results_changed();
        return out;
    }
    if (op == "I")
    {
        auto pos = nv::unhex_list(f.at(1));
        int i = std::stoi(f.at(2));
        no::parser p("prog");
        p.accept_positionals();
        std::vector<std::string> argv;
        argv.push_back("--");
        for (auto& s : pos)
            argv.push_back(s);
        std::vector<const char*> av;
        av.push_back("prog");
        for (auto& s : argv)
            av.push_back(s.c_str());
        try
        {
            auto a = p.parse(static_cast<int>(av.size()), av.data());
            // get(i) and operator[](i) are the same access: both answer, or both raise
            auto access = [&](bool subscript) -> std::string {
                try
                {
                    const std::string& r = subscript ? a[i] : a.get(i);
                    return "ok " + nv::hex(r);
                }
                catch (std::out_of_range&)
                {
                    return "raise";
                }
            };
            std::string g = access(false), sub = access(true);
            if (g != sub)
                return "operator[]-disagrees get:" + g + " subscript:" + sub;
            return g;
        }
        catch (std::exception&)
        {
            return "parse-failed";
        }
    }
    if (op == "T")
    {
        try
        {
            no::user_input u(nv::unhex(f.at(1)));
            std::string name = u.is_value() ? std::string("") : u.name();
            // name(): the part in front of the first '='; for a value token name() raises, the
            // classification bits are still reported
            std::string val = "~";
            if (!u.is_value() && u.has_value())
                val = nv::hex(u.value());
            std::string nm;
            if (u.is_value())
            {
                auto arg = nv::unhex(f.at(1));
                auto eq = arg.find('=');
                nm = eq == std::string::npos ? arg : arg.substr(0, eq);
                if (eq != std::string::npos)
                    val = nv::hex(arg.substr(eq + 1));
            }
            else
                nm = name;
            return "ui " + nv::hex(nm) + " " + val + " " + b(u.is_value()) + b(u.is_double_dash()) + b(u.is_short()) +
                   b(u.is_named()) + b(u.has_value()) + b(u.has_prefix());
        }
        catch (no::parsing_error&)
        {
            return "user";
        }
        catch (no::parser_error&)
        {
            return "dev";
        }
    }
    if (op == "E")
    {
        try
        {
            return no::toggle::parse_env_value(nv::unhex(f.at(1))) ? "1" : "0";
        }
        catch (no::parsing_error&)
        {
            return "user";
        }
        catch (std::exception&)
        {
            return "other";
        }
    }
    if (op == "D")
        return run_decl(f.at(1));
    return "bad-op";
}

static std::string run_decl(const std::string& ops)
{
    auto p = std::make_unique<no::parser>("prog");
    std::vector<no::base*> objs;         // id -> object
    std::vector<char> kinds;
    std::string out;
    auto find_id = [&](no::base* b2) {
        for (std::size_t i = 0; i < objs.size(); i++)
            if (objs[i] == b2)
                return static_cast<int>(i);
        return -1;
    };
    for (auto& tok : nv::splitc(ops, ';'))
    {
        auto t = nv::splitc(tok, ':');
        std::string res;
        try
        {
            if (t[0] == "o" || t[0] == "m" || t[0] == "t")
            {
                int g = std::stoi(t[1]);
                no::group& grp = g == 0 ? p->group() : p->group(group_name(g));
                std::string name = nv::unhex(t[2]);
                no::base* obj;
                if (t[0] == "o")
                    obj = &grp.option(name, "d").optional();
                else if (t[0] == "m")
                    obj = &grp.multi_option(name, "d").optional();
                else
                    obj = &grp.toggle(name, "d");
                int id = find_id(obj);
                if (id < 0)
                {
                    objs.push_back(obj);
                    kinds.push_back(t[0][0]);
                    id = static_cast<int>(objs.size()) - 1;
                }
                res = "ok" + std::to_string(id);
            }
            else if (t[0] == "sh" || t[0] == "en" || t[0] == "mv")
            {
                std::size_t id = std::stoul(t[1]);
                if (id >= objs.size())
                    res = "skip";
                else
                {
                    std::string v = nv::unhex(t[2]);
                    char k = kinds[id];
                    auto apply = [&](auto* o) {
                        if (t[0] == "sh")
                            o->short_name(v);
                        else if (t[0] == "en")
                            o->env(v);
                        else
                            o->metavar(v);
                    };
                    if (k == 'o')
                        apply(static_cast<no::option*>(objs[id]));
                    else if (k == 'm')
                        apply(static_cast<no::multi_option*>(objs[id]));
                    else
                        apply(static_cast<no::toggle*>(objs[id]));
                    res = "ok";
                }
            }
            else if (t[0] == "grp")
            {
                p->group(group_name(std::stoi(t[1])));
                res = "ok";
            }
            else if (t[0] == "move")
            {
                // the parser object is moved to a new place; the old object goes away
                auto q = std::make_unique<no::parser>(std::move(*p));
                p = std::move(q);
                res = "ok";
            }
            else if (t[0] == "movea")
            {
                // the parser object is move-assigned over another parser (which had its own default group);
                // the old object goes away
                auto q = std::make_unique<no::parser>("elsewhere", "another parser");
                *q = std::move(*p);
                p = std::move(q);
                res = "ok";
            }
            else if (t[0] == "probe")
            {
                auto argv = nv::unhex_list(t[1]);
                std::vector<const char*> av;
                av.push_back("prog");
                for (auto& s : argv)
                    av.push_back(s.c_str());
                try
                {
                    auto a = p->parse(static_cast<int>(av.size()), av.data());
                    res = "parsed";
                    for (std::size_t i = 0; i < objs.size(); i++)
                    {
                        const std::string& n = objs[i]->name();
                        if (kinds[i] == 't')
                            res += " " + std::to_string(i) + "=" + std::to_string(a.given(n));
                        else if (kinds[i] == 'm')
                            res += " " + std::to_string(i) + "=#" + std::to_string(a.count(n));
                        else
                            res += " " + std::to_string(i) + "=" + (a.provided(n) ? nv::hex(a.get(n)) : std::string("~"));
                    }
                }
                catch (no::parsing_error&)
                {
                    res = "user";
                }
                catch (no::parser_error&)
                {
                    res = "dev";
                }
                // the other entry point on the same object: same kind of outcome (refuses what the first refuses)
                std::vector<no::user_input> ui;
                bool constructible = true;
                try
                {
                    for (auto& s : argv)
                        ui.emplace_back(s);
                }
                catch (no::parsing_error&)
                {
                    constructible = false;
                }
                if (constructible)
                {
                    std::string kind2;
                    try
                    {
                        p->parse(ui);
                        kind2 = "parsed";
                    }
                    catch (no::parsing_error&)
                    {
                        kind2 = "user";
                    }
                    catch (no::parser_error&)
                    {
                        kind2 = "dev";
                    }
                    std::string kind1 = res.substr(0, res.find(' '));
                    if (kind1 != kind2)
                        res = "ENTRY-POINTS-DIFFER argv:" + kind1 + " user_input:" + kind2;
                }
            }
            else
                res = "bad-op";
        }
        catch (no::parser_error&)
        {
            res = "dev";
        }
        catch (no::parsing_error&)
        {
            res = "user";
        }
        out += (out.empty() ? "" : ";") + res;
    }
    return out;
}

int main()
{
    return nv::main_loop(handle, 20);
}
