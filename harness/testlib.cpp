// tiny library opened by the dl harness
extern "C" int nv_add(int a, int b)
{
    return a + b;
}
extern "C" { int nv_null_symbol_value = 0; }
