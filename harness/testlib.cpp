// tiny library opened by the dl harness
extern "C" int nv_add(int a, int b)
{
    return a + b;
}
extern "C" { int nv_null_symbol_value = 0; }
// a symbol that is defined and whose address is null (an absolute symbol, as version nodes are): looking it up succeeds
__asm__(".globl nv_defined_at_null\n.set nv_defined_at_null, 0\n");
