// Harness for the thread-safe sinks (C09): real threads, a stream buffer that is deliberately
// not thread-safe, buffers, and detects concurrent entry into any of its operations.
//   mt turn <o|e> <sevA> <sevB> <w|s> <rep> <build>
//        turnstile: writer A (severity sevA) is parked inside the stream buffer - in its write
//        (w) or in the flush that follows (s) - writer B (severity sevB) must block before entering;
//        <rep> > 1: filler records bring the number of records the sink has seen since the process started to
//        <rep> modulo 65536 first (the lock has a history; counters inside it wrap around)
//   mt turnseq <o|e> <rounds: parker,intruder pairs "01.10.21"> <w|s> <build>
//        a sequence of turnstiles among three long-lived threads
//   mt chain <o|e> <thread ids "0120"> <w|s> <build>
//        turnstiles without a gap: the blocked thread of one round is the parked one of the next
//   mt stress <o|e> <threads> <records> <sevmode> <seed> <build>
//        sevmode 0..5: every record at that severity; 6: (5t+k) mod 6; 7: thread 0 fatal, others k mod 5;
//        8: info, and every second record is logged by a callable operand of the following statement
//           (2*records records per thread: inner 2k, then outer 2k+1)
//        9: info; the records of thread 0 are longer than a page
//   mt heavy <o|e> <threads> <bigrecords> <megabytes> <seed> <build>
//        thread 0 logs <bigrecords> records of <megabytes> MiB each while every other thread logs 1500 short ones
#include "common.hpp"

#include <nitro/log/attribute/message.hpp>
#include <nitro/log/attribute/severity.hpp>
#include <nitro/log/attribute/timestamp.hpp>
#include <nitro/log/filter/null_filter.hpp>
#include <nitro/log/log.hpp>
#include <nitro/log/sink/stderr_mt.hpp>
#include <nitro/log/sink/stdout_mt.hpp>

#include <atomic>
#include <chrono>
#include <map>
#include <thread>

namespace nl = nitro::log;

using Record = nl::record<nl::message_attribute, nl::severity_attribute,
                          nl::timestamp_clock_attribute<std::chrono::system_clock>>;

template <typename R>
struct RawFmt
{
    std::string format(R& r)
    {
        return r.message();
    }
};

using LogOut = nl::logger<Record, RawFmt, nl::sink::stdout_mt, nl::filter::null_filter>;
using LogErr = nl::logger<Record, RawFmt, nl::sink::StdErrThreaded, nl::filter::null_filter>;

// A buffering stream buffer without any synchronisation of its own.  xsputn/overflow append byte
// by byte to a pending area through a plain (racy) index and yield in between to widen race
// windows; sync() moves the pending bytes to the device area and then clears the pending area, the
// way a file buffer does.  `inside` counts the threads currently in any of the three.
static thread_local int g_thread_tag = -2;

class RacyBuf : public std::streambuf
{
public:
    std::vector<char> data;     // the device
    std::vector<char> pending;  // the buffer
    volatile std::size_t pos = 0;
    volatile std::size_t ppos = 0;
    std::atomic<int> inside{ 0 };
    std::atomic<int> max_inside{ 0 };
    std::atomic<int> park_mode{ 0 }; // 0 none, 1 first write, 2 first sync
    std::atomic<bool> parked{ false };
    std::atomic<bool> release{ false };
    std::atomic<int> park_tid{ -1 };     // -1: whoever comes first parks; otherwise only the thread with this tag
    std::atomic<int> park_gen{ 0 }, release_gen{ 0 };
    std::atomic<int> entries{ 0 };
    std::atomic<int> entries_after_park{ 0 };
    unsigned yield_every = 0;

    explicit RacyBuf(std::size_t device = 1 << 22, std::size_t buffer = 1 << 16) : data(device), pending(buffer)
    {
    }

    void enter()
    {
        int now = ++inside;
        int m = max_inside.load();
        while (now > m && !max_inside.compare_exchange_weak(m, now))
        {
        }
        entries++;
        if (parked)
            entries_after_park++;
    }
    void leave()
    {
        --inside;
    }
    bool may_park() const
    {
        return park_tid.load() < 0 || park_tid.load() == g_thread_tag;
    }
    void park()
    {
        int g = ++park_gen;
        parked = true;
        while (!release && release_gen.load() < g)
            std::this_thread::sleep_for(std::chrono::milliseconds(1));
    }
    void put(char c)
    {
        std::size_t p = ppos;
        if (p + 1 < pending.size())
        {
            pending[p] = c;
            if (yield_every && (p % yield_every) == 0)
                std::this_thread::yield();
            ppos = p + 1;
        }
    }
    void drain()
    {
        std::size_t n = ppos, p = pos;
        for (std::size_t i = 0; i < n && p + 1 < data.size(); i++)
        {
            data[p++] = pending[i];
            if (yield_every && (i % (yield_every + 3)) == 0)
                std::this_thread::yield();
        }
        pos = p;
        if (park_mode == 2 && may_park() && !parked.exchange(true))
            park();
        ppos = 0;
    }

protected:
    std::streamsize xsputn(const char* s, std::streamsize n) override
    {
        enter();
        bool first = true;
        for (std::streamsize i = 0; i < n; i++)
        {
            put(s[i]);
            if (first && park_mode == 1 && may_park() && !parked.exchange(true))
                park();
            first = false;
        }
        leave();
        return n;
    }
    int_type overflow(int_type ch) override
    {
        enter();
        if (ch != traits_type::eof())
            put(static_cast<char>(ch));
        leave();
        return ch;
    }
    int sync() override
    {
        enter();
        drain();
        leave();
        return 0;
    }
};

static int sev_of(int t, int k, int mode)
{
    if (mode == 9)
        return t == 0 ? 6 : 2; // 6: an info record with a long payload (see record_text)
    if (mode == 8)
        return 2;
    if (mode <= 5)
        return mode;
    if (mode == 6)
        return (5 * t + k) % 6;
    return t == 0 ? 5 : k % 5;
}

static std::string record_text(int t, int k, int sev)
{
    // [t+1, k+1, sev+1, payload..., 0]  (the same encoding as Drv/MT.lean)
    std::string r;
    r.push_back(static_cast<char>(t + 1));
    r.push_back(static_cast<char>(k + 1));
    r.push_back(static_cast<char>(sev + 1));
    // severity code 7 (mode 9, thread 0): a record longer than a page (4090..4109 bytes of payload)
    std::size_t payload = static_cast<std::size_t>((t * 7 + k * 3) % 9);
    if (sev >= 6)
        payload = 4090 + static_cast<std::size_t>((t * 7 + k * 3) % 20);
    r.append(payload, static_cast<char>(((t + k) % 200) + 1));
    r.push_back('\0');
    return r;
}

// records handed to each sink since the process started (a lock inside the sink has seen as many acquisitions)
static std::atomic<unsigned long> g_records_out{ 0 }, g_records_err{ 0 };

template <typename L>
static void log_one(int sev, const std::string& text)
{
    (std::is_same<L, LogOut>::value ? g_records_out : g_records_err)++;
    switch (sev >= 6 ? 2 : sev)
    {
    case 0:
        L::trace() << text;
        break;
    case 1:
        L::debug() << text;
        break;
    case 2:
        L::info() << text;
        break;
    case 3:
        L::warn() << text;
        break;
    case 4:
        L::error() << text;
        break;
    default:
        L::fatal() << text;
        break;
    }
}

static std::string verdict(int n, int r, int mode, const std::string& out, bool concurrent)
{
    std::vector<std::string> lines;
    std::string cur;
    for (char c : out)
    {
        cur.push_back(c);
        if (c == '\0')
        {
            lines.push_back(cur);
            cur.clear();
        }
    }
    if (!cur.empty())
        lines.push_back(cur);
    std::vector<std::string> expected;
    if (mode == 8)
        r *= 2;
    for (int t = 0; t < n; t++)
        for (int k = 0; k < r; k++)
            expected.push_back(record_text(t, k, sev_of(t, k, mode)));
    std::map<std::string, long> want, got;
    for (auto& e : expected)
        want[e]++;
    for (auto& l : lines)
        got[l]++;
    long torn = 0, lost = 0, dup = 0;
    for (auto& l : lines)
        torn += want.count(l) == 0;
    for (auto& e : expected)
    {
        long c = got.count(e) ? got[e] : 0;
        lost += c == 0;
        dup += c > 1;
    }
    bool order = true;
    for (int t = 0; t < n; t++)
    {
        int last = -1;
        for (auto& l : lines)
            if (want.count(l) && static_cast<unsigned char>(l[0]) == t + 1)
            {
                int k = static_cast<unsigned char>(l[1]);
                if (k < last)
                    order = false;
                last = k;
            }
    }
    return "records=" + std::to_string(n * r) + " concurrent=" + (concurrent ? "1" : "0") +
           " torn=" + std::to_string(torn) + " lost=" + std::to_string(lost) + " dup=" + std::to_string(dup) +
           " order=" + (order ? "1" : "0");
}

static const int HEAVY_SMALL = 1500;

static std::string heavy_text(int t, int k, std::size_t mb)
{
    // thread 0: [1, k+1, 7, payload of about mb MiB, 0]; the others: [t+1, k%250+1, k/250+8, payload 0..8, 0]
    std::string r;
    r.push_back(static_cast<char>(t + 1));
    if (t == 0)
    {
        r.push_back(static_cast<char>(k + 1));
        r.push_back(static_cast<char>(7));
        r.append(mb * 1048576 - 3 + static_cast<std::size_t>((k * 37) % 61), static_cast<char>((k % 200) + 1));
    }
    else
    {
        r.push_back(static_cast<char>(k % 250 + 1));
        r.push_back(static_cast<char>(k / 250 + 8));
        r.append(static_cast<std::size_t>((t * 7 + k * 3) % 9), static_cast<char>(((t + k) % 200) + 1));
    }
    r.push_back('\0');
    return r;
}

static std::string heavy_verdict(int n, int r, std::size_t mb, const std::string& out, bool concurrent)
{
    // walk the device contents record by record: each piece between NULs has to be the next record of its thread
    std::vector<int> next(static_cast<std::size_t>(n), 0);
    long torn = 0, dup = 0;
    bool order = true;
    std::size_t i = 0;
    while (i < out.size())
    {
        std::size_t e = out.find('\0', i);
        std::string piece = out.substr(i, e == std::string::npos ? std::string::npos : e - i + 1);
        i = e == std::string::npos ? out.size() : e + 1;
        int t = static_cast<unsigned char>(piece[0]) - 1;
        bool whole = false;
        if (t >= 0 && t < n && piece.size() >= 4)
        {
            int limit = t == 0 ? r : HEAVY_SMALL;
            // which record of thread t is it?
            int k = t == 0 ? static_cast<unsigned char>(piece[1]) - 1
                           : (static_cast<unsigned char>(piece[2]) - 8) * 250 + static_cast<unsigned char>(piece[1]) - 1;
            if (k >= 0 && k < limit && piece == heavy_text(t, k, mb))
            {
                whole = true;
                if (k < next[static_cast<std::size_t>(t)])
                {
                    dup += 1;
                    order = false;
                }
                else
                {
                    if (k > next[static_cast<std::size_t>(t)])
                        order = false; // a record of this thread is missing before this one (counted as lost below)
                    next[static_cast<std::size_t>(t)] = k + 1;
                }
            }
        }
        if (!whole)
            torn++;
    }
    long lost = 0;
    for (int t = 0; t < n; t++)
        lost += (t == 0 ? r : HEAVY_SMALL) - next[static_cast<std::size_t>(t)];
    return "records=" + std::to_string(r + (n - 1) * HEAVY_SMALL) + " concurrent=" + (concurrent ? "1" : "0") +
           " torn=" + std::to_string(torn) + " lost=" + std::to_string(lost) + " dup=" + std::to_string(dup) +
           " order=" + (order ? "1" : "0");
}

static std::string handle(const std::vector<std::string>& f)
{
    bool use_out = f.at(1) == "o";
    std::ostream& os = use_out ? std::cout : std::cerr;
    bool heavy = f.at(0) == "heavy";
    std::size_t mb = heavy ? std::stoul(f.at(4)) : 0;
    std::size_t big = heavy ? std::stoul(f.at(3)) * (mb * 1048576 + 64) : 0;
    RacyBuf buf(heavy ? big + std::stoul(f.at(2)) * HEAVY_SMALL * 16 + 4096 : 1 << 22, heavy ? mb * 1048576 + 4096 : 1 << 16);
    std::streambuf* old = os.rdbuf(&buf);
    std::string result;
    auto log = [&](int sev, const std::string& s) {
        if (use_out)
            log_one<LogOut>(sev, s);
        else
            log_one<LogErr>(sev, s);
    };
    if (f.at(0) == "turn")
    {
        int sevA = std::stoi(f.at(2)), sevB = std::stoi(f.at(3));
        // <rep> records go through the sink first (from this thread); the turnstile comes after them
        // (counted since the process started: filler records bring the sink's count to <rep> modulo 65536)
        long before = std::stol(f.at(5));
        if (before > 1)
        {
            unsigned long seen = (use_out ? g_records_out : g_records_err).load();
            unsigned long filler = (static_cast<unsigned long>(before) + 65536ul * 4 - seen % 65536ul) % 65536ul;
            for (unsigned long i = 0; i < filler; i++)
                log(2, std::string("r"));
        }
        else
            for (long i = 0; i < before; i++)
                log(2, std::string("r"));
        buf.entries = 0;
        buf.max_inside = 0;
        buf.park_mode = f.at(4) == "s" ? 2 : 1;
        std::thread a([&] { log(sevA, record_text(0, 0, sevA)); });
        // wait until A is parked inside the stream buffer
        for (int i = 0; i < 50000 && !buf.parked; i++) // (generous: a busy machine may take its time to schedule A)
            std::this_thread::sleep_for(std::chrono::milliseconds(1));
        bool a_parked = buf.parked;
        std::thread b([&] { log(sevB, record_text(1, 0, sevB)); });
        // B must not get into the stream while A is inside: give it ample time to try
        bool entered = false;
        for (int i = 0; i < 300; i++)
        {
            if (buf.entries_after_park.load() > 0 || buf.max_inside.load() > 1)
            {
                entered = true;
                break;
            }
            std::this_thread::sleep_for(std::chrono::milliseconds(1));
        }
        buf.release = true;
        a.join();
        b.join();
        result = std::string("parked=") + (a_parked ? "1" : "0") + " blocked=" + (entered ? "0" : "1") +
                 " concurrent=" + (buf.max_inside.load() > 1 ? "1" : "0");
    }
    else if (f.at(0) == "chain")
    {
        // a chain of turnstiles without a gap: while thread s0 is parked inside the stream buffer thread s1 arrives and
        // must block; s0 is let go and s1 - now inside - is parked in its turn; s2 arrives and must block; ... so every
        // thread enters the sink while somebody is inside and leaves it while somebody else is waiting
        std::string seq = f.at(2);
        int park_mode = f.at(3) == "s" ? 2 : 1;
        std::atomic<int> mail[3];
        std::atomic<bool> quit{ false };
        for (auto& m : mail)
            m = -1;
        std::vector<std::thread> ts;
        for (int t = 0; t < 3; t++)
            ts.emplace_back([&, t] {
                g_thread_tag = t;
                int k = 0;
                while (!quit)
                {
                    int sev = mail[t].load();
                    if (sev < 0)
                    {
                        std::this_thread::sleep_for(std::chrono::microseconds(200));
                        continue;
                    }
                    log(sev, record_text(t, k++, sev));
                    mail[t] = -1;
                }
            });
        result = "all-rounds-blocked";
        buf.entries = 0;
        buf.max_inside = 0;
        buf.entries_after_park = 0;
        buf.release = false;
        buf.parked = false;
        buf.park_mode = park_mode;
        int cur = seq[0] - '0';
        buf.park_tid = cur;
        mail[cur] = 2;
        for (int w = 0; w < 50000 && !buf.parked; w++)
            std::this_thread::sleep_for(std::chrono::milliseconds(1));
        for (std::size_t j = 1; j < seq.size() && result == "all-rounds-blocked"; j++)
        {
            int nxt = seq[j] - '0';
            bool a_parked = buf.parked;
            mail[nxt] = (j % 2) ? 2 : 4;
            bool entered = false;
            for (int w = 0; w < 120; w++)
            {
                if (buf.entries_after_park.load() > 0 || buf.max_inside.load() > 1)
                {
                    entered = true;
                    break;
                }
                std::this_thread::sleep_for(std::chrono::milliseconds(1));
            }
            if (!a_parked || entered)
            {
                result = "round" + std::to_string(j) + ":parked=" + (a_parked ? "1" : "0") + " blocked=" +
                         (entered ? "0" : "1") + " concurrent=" + (buf.max_inside.load() > 1 ? "1" : "0");
                break;
            }
            // hand over: the waiting thread becomes the parked one
            buf.park_tid = nxt;
            buf.entries_after_park = 0;
            buf.parked = false;
            buf.release_gen = buf.park_gen.load();
            for (int w = 0; w < 50000 && (mail[cur] >= 0 || !buf.parked); w++)
                std::this_thread::sleep_for(std::chrono::milliseconds(1));
            if (buf.max_inside.load() > 1)
                result = "round" + std::to_string(j) + ":concurrent=1";
            cur = nxt;
        }
        buf.park_mode = 0;
        buf.release = true;
        for (int w = 0; w < 50000 && (mail[0] >= 0 || mail[1] >= 0 || mail[2] >= 0); w++)
            std::this_thread::sleep_for(std::chrono::milliseconds(1));
        quit = true;
        for (auto& t : ts)
            t.join();
        buf.park_tid = -1;
    }
    else if (f.at(0) == "turnseq")
    {
        // a sequence of turnstiles among three long-lived threads: in round k thread <parker> is parked inside the
        // stream buffer and thread <intruder> must block before entering.  What the sink remembers about who wrote
        // last, who waited, who entered while somebody else was inside - whatever it is - must not let anybody in.
        std::string rounds = f.at(2);
        int park_mode = f.at(3) == "s" ? 2 : 1;
        std::atomic<int> mail[3];
        std::atomic<bool> quit{ false };
        for (auto& m : mail)
            m = -1;
        std::vector<std::thread> ts;
        for (int t = 0; t < 3; t++)
            ts.emplace_back([&, t] {
                int k = 0;
                while (!quit)
                {
                    int sev = mail[t].load();
                    if (sev < 0)
                    {
                        std::this_thread::sleep_for(std::chrono::microseconds(200));
                        continue;
                    }
                    log(sev, record_text(t, k++, sev));
                    mail[t] = -1;
                }
            });
        result = "all-rounds-blocked";
        int round = 0;
        for (std::size_t i = 0; i + 1 < rounds.size() && result == "all-rounds-blocked"; i += 3, round++)
        {
            int parker = rounds[i] - '0', intruder = rounds[i + 1] - '0';
            buf.entries = 0;
            buf.max_inside = 0;
            buf.entries_after_park = 0;
            buf.release = false;
            buf.parked = false;
            buf.park_mode = park_mode;
            mail[parker] = 2;
            for (int w = 0; w < 50000 && !buf.parked; w++)
                std::this_thread::sleep_for(std::chrono::milliseconds(1));
            bool a_parked = buf.parked;
            mail[intruder] = (round % 2) ? 5 : 2;
            bool entered = false;
            for (int w = 0; w < 150; w++)
            {
                if (buf.entries_after_park.load() > 0 || buf.max_inside.load() > 1)
                {
                    entered = true;
                    break;
                }
                std::this_thread::sleep_for(std::chrono::milliseconds(1));
            }
            buf.park_mode = 0;
            buf.release = true;
            for (int w = 0; w < 50000 && (mail[parker] >= 0 || mail[intruder] >= 0); w++)
                std::this_thread::sleep_for(std::chrono::milliseconds(1));
            if (!a_parked || entered || buf.max_inside.load() > 1)
                result = "round" + std::to_string(round) + ":parked=" + (a_parked ? "1" : "0") + " blocked=" +
                         (entered ? "0" : "1") + " concurrent=" + (buf.max_inside.load() > 1 ? "1" : "0");
        }
        quit = true;
        for (auto& t : ts)
            t.join();
    }
    else if (heavy)
    {
        int n = std::stoi(f.at(2)), r = std::stoi(f.at(3));
        unsigned seed = static_cast<unsigned>(std::stoul(f.at(5)));
        buf.yield_every = 257 + 2 * (seed % 128); // a few yields inside every 4 KiB
        std::atomic<int> go{ 0 };
        std::vector<std::thread> ts;
        for (int t = 0; t < n; t++)
            ts.emplace_back([&, t] {
                ++go;
                while (go < n)
                    std::this_thread::yield();
                int count = t == 0 ? r : HEAVY_SMALL;
                for (int k = 0; k < count; k++)
                    log(2, heavy_text(t, k, mb));
            });
        for (auto& t : ts)
            t.join();
        buf.pubsync();
        std::string out(buf.data.data(), buf.pos);
        result = heavy_verdict(n, r, mb, out, buf.max_inside.load() > 1);
    }
    else
    {
        int n = std::stoi(f.at(2)), r = std::stoi(f.at(3)), mode = std::stoi(f.at(4));
        unsigned seed = static_cast<unsigned>(std::stoul(f.at(5)));
        buf.yield_every = 1 + seed % 3;
        std::atomic<int> go{ 0 };
        std::vector<std::thread> ts;
        for (int t = 0; t < n; t++)
            ts.emplace_back([&, t] {
                ++go;
                while (go < n)
                    std::this_thread::yield();
                for (int k = 0; k < r; k++)
                {
                    if (mode == 8)
                    {
                        // a statement whose operand is a callable that itself logs (same logger, same severity,
                        // same thread): the inner record is complete before the outer one is
                        std::string inner = record_text(t, 2 * k, 2), outer = record_text(t, 2 * k + 1, 2);
                        auto operand = [&]() -> std::string {
                            log(2, inner);
                            return outer;
                        };
                        (use_out ? g_records_out : g_records_err)++;
                        if (use_out)
                            LogOut::info() << operand;
                        else
                            LogErr::info() << operand;
                        continue;
                    }
                    int sev = sev_of(t, k, mode);
                    log(sev, record_text(t, k, sev));
                    if ((k + t + seed) % 5 == 0)
                        std::this_thread::yield();
                }
            });
        for (auto& t : ts)
            t.join();
        buf.pubsync();
        std::string out(buf.data.data(), buf.pos);
        result = verdict(n, r, mode, out, buf.max_inside.load() > 1);
    }
    os.rdbuf(old);
    return result;
}

int main()
{
    return nv::main_loop(handle, 120, false);
}
